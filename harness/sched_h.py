"""Scheduler-level harness: generated task graphs, a schedule-controlling Runner (L1), a spy around the real
runners (L3), trace recording, Gallina case emission and the property monitors for C01-C05, C10, C11, C17."""
import json
import logging
import os
import random
import shutil
import tempfile
from datetime import datetime, timedelta

import labtech
from labtech.exceptions import LabError
from labtech.lab import Lab
from labtech.runners import ForkRunnerBackend, SerialRunnerBackend, SpawnRunnerBackend
from labtech.runners.base import run_or_load_task
from labtech.types import ResultMeta, Runner, RunnerBackend, TaskResult

import lv_universe as U
from common import g_bool, g_list, g_nats, g_opt, g_pair, g_val, subdir
from common import storage_of

logging.getLogger('labtech').setLevel(logging.CRITICAL)

import lv_universe3 as U3  # noqa
SCHED = list(U.SCHED_TYPES) + [U3.TN1, U.TCtxF, U.TNest]       # 12: same class name as index 3, another module; 13: fails in
                                                                # filter_context; 14: cached by a cache class nested in a class
MAXPAR = [None, None, 1, 1, 2, 2, 3, 3, None, None, None, None, 1, None, None]          # per type index of SCHED
CACHEABLE = [True, False] * 4 + [True, True, True, True, False, True, True]


# ------------------------------------------------------------------ generation

def gen_struct(rng, leaves):
    """Arrange the given leaf specs in a random nesting of tuples / lists / dicts (depth <= 3)."""
    def build(items, depth):
        if len(items) <= 1 and rng.random() < 0.5 or depth >= 3:
            return ['tuple', items]
        kind = rng.choice(['tuple', 'list', 'dict', 'tuple'])
        # split items into groups, some nested further
        out, i = [], 0
        while i < len(items):
            if rng.random() < 0.35 and depth < 2:
                j = min(len(items), i + rng.randint(1, 3))
                out.append(build(items[i:j], depth + 1))
                i = j
            else:
                out.append(items[i])
                i += 1
        if rng.random() < 0.2:
            out.insert(rng.randint(0, len(out)), ['scalar', rng.choice([0, 'x', None, 1.5, True])])
        if kind == 'dict':
            # key names in no particular order: insertion order (which labtech's dependency search follows) must
            # not coincide with sorted order
            names = [f'k{idx}' for idx in range(len(out))]
            rng.shuffle(names)
            return ['dict', [[nm, x] for nm, x in zip(names, out)]]
        return [kind, out]
    return build(list(leaves), 0)


def flat_spec(spec):
    k = spec[0]
    if k == 'task':
        return [spec[1]]
    if k == 'scalar':
        return []
    if k == 'dict':
        return [t for _, x in spec[1] for t in flat_spec(x)]
    return [t for x in spec[1] for t in flat_spec(x)]


def first_occ(xs):
    out = []
    for x in xs:
        if x not in out:
            out.append(x)
    return out


def gen_case(rng, *, max_n=8, p_fail=0.15, runner='l1', allow_dups=True, ntypes=8, p_unpicklable=0.0):
    n = rng.randint(1, max_n)
    shape = rng.choice(['random', 'random', 'chain', 'diamond', 'fan', 'shared_leaf'])
    types = [rng.randrange(ntypes) for _ in range(n)]
    r = rng.random()
    if r < 0.25:
        types = [rng.choice([2, 3])] * n          # everything on one max_parallel=1 type pair
    elif r < 0.45:
        # everything on a max_parallel=2 or 3 type, cached or not (cache=None types share one cache key), mostly independent tasks
        types = [rng.choice([[4], [5], [6], [7], [4, 5], [6, 7]][rng.randrange(6)]) for _ in range(n)]
        shape = rng.choice(['fan', 'fan', shape])
    elif r < 0.53:
        # two task types with the same class name (different modules), each limited to one task at a time
        types = [rng.choice([3, 12]) for _ in range(n)]
        shape = rng.choice(['fan', 'fan', shape])
    specs, reads, behs = [], [], []
    for t in range(n):
        if t == 0:
            ds = []
        elif shape == 'chain':
            ds = [t - 1]
        elif shape == 'fan':
            ds = [] if t < n - 1 else list(range(n - 1))
        elif shape == 'shared_leaf':
            ds = [0] if t % 2 else ([0, t - 1] if t > 1 else [0])
        elif shape == 'diamond':
            ds = [d for d in (t - 1, t - 2) if d >= 0]
        else:
            k = rng.choice([0, 0, 1, 1, 2, 3])
            ds = rng.sample(range(t), min(k, t))
        leaves = []
        for d in ds:
            leaves.append(['task', d, 0])
            if allow_dups and rng.random() < (0.5 if runner in ('fork', 'spawn') else 0.2):
                leaves.append(['task', d, rng.choice([0, 1, 2])])   # duplicate: same / equal-but-distinct object
        rng.shuffle(leaves)
        spec = gen_struct(rng, leaves)
        found = flat_spec(spec)
        if rng.random() < 0.75:
            rd = list(range(len(found)))
        else:
            rd = sorted(rng.sample(range(len(found)), rng.randint(0, len(found)))) if found else []
        specs.append(spec)
        reads.append(rd)
        behs.append('raise' if rng.random() < p_fail else 'ok')
    if p_fail and rng.random() < 0.12:
        # the failing tasks fail while their context is filtered (before run() is reached)
        types = [13 if behs[t] == 'raise' else types[t] for t in range(n)]
    k = rng.randint(1, min(n, 4))
    req = [[t, 0] for t in rng.sample(range(n), k)]
    if rng.random() < 0.6 and [n - 1, 0] not in req:
        req.append([n - 1, 0])
    if allow_dups and rng.random() < 0.25:
        t = rng.choice(req)[0]
        req.insert(rng.randint(0, len(req)), [t, rng.choice([0, 1])])
    storage = 'none' if rng.random() < 0.15 else 'local'
    if storage == 'none' and allow_dups and rng.random() < 0.6:
        # an equal instance spelt differently (0 / 0.0 / False, dict entries in another insertion order): == and hash agree,
        # the cache key does not, so this is only generated for Labs without storage
        t = rng.choice(req)[0]
        top = specs[t]
        if not any(x[0] == 'scalar' for x in (top[1] if top[0] != 'dict' else [v for _, v in top[1]])):
            if top[0] == 'dict':
                top[1].append(['kS', ['scalar', 0]])
            else:
                top[1].append(['scalar', 0])
        req.insert(rng.randint(0, len(req)), [t, 3])
    case = dict(n=n, types=types, specs=specs, reads=reads, behs=behs, req=req, storage=storage,
                bust=rng.random() < 0.15, cont=rng.random() < 0.7, runner=runner,
                max_workers=rng.choice([1, 2, 3, None]), sched_seed=rng.randrange(1 << 30), pre=[])
    if storage == 'local' and p_unpicklable and runner in ('l1', 'serial'):
        # some failures happen while the result is being saved (run() returns, the value cannot be pickled)
        for t in range(n):
            if behs[t] == 'raise' and CACHEABLE[types[t]] and types[t] != 10 and rng.random() < p_unpicklable:
                behs[t] = 'unpicklable'
    if storage == 'local':
        okstar = pure_ok(case)
        cand = [t for t in range(n) if CACHEABLE[types[t]] and okstar[t] is not None]
        if cand and rng.random() < 0.6:
            case['pre'] = sorted(rng.sample(cand, rng.randint(1, len(cand))))
    return case


def pure_ok(case):
    """Per task: its value under plain sequential evaluation without any cache, or None if it fails."""
    vals = []
    for t in range(case['n']):
        if case['behs'][t] != 'ok':
            vals.append(None)
            continue
        found = flat_spec(case['specs'][t])
        args = [vals[found[i]] for i in case['reads'][t]]
        vals.append(None if any(a is None for a in args) else ('N', t, tuple(args)))
    return vals


def deps_of(case, t):
    return first_occ(flat_spec(case['specs'][t]))


def use_cache0(case, t):
    return (not case['bust']) and t in case['pre']


def py_ref(case):
    """Reference evaluation given the cache pre-state (what run_tasks must return per task, None = fails)."""
    pure = pure_ok(case)
    vals = []
    for t in range(case['n']):
        if use_cache0(case, t):
            vals.append(pure[t])
            continue
        if case['behs'][t] != 'ok':
            vals.append(None)
            continue
        found = flat_spec(case['specs'][t])
        args = [vals[found[i]] for i in case['reads'][t]]
        vals.append(None if any(a is None for a in args) else ('N', t, tuple(args)))
    return vals


def py_needed(case):
    need, todo = [], [t for t, _ in case['req']]
    while todo:
        t = todo.pop()
        if t in need:
            continue
        need.append(t)
        if not use_cache0(case, t):
            todo += deps_of(case, t)
    return sorted(need)


# ------------------------------------------------------------------ building the objects

class TidMap(dict):
    """task object -> task id.  == / hash of task objects belong to the code under test and may be broken there: an object
    the dict does not find is identified by the label the universe gives every task."""

    def __missing__(self, key):
        lab = getattr(key, 'label', None)
        return lab if isinstance(lab, int) and not isinstance(lab, bool) else 9999


class Built:
    def __init__(self, case):
        self.case = case
        self.canon = []
        self.all_objects = []
        for t in range(case['n']):
            self.canon.append(self._make(t, self._struct(case['specs'][t])))
        self.req = [self.canon[t] if mode == 0 else self._fresh(t, mode) for t, mode in case['req']]
        self.tid_of = TidMap({obj: t for t, obj in enumerate(self.canon)})

    def _make(self, t, deps):
        case = self.case
        cls = SCHED[case['types'][t]]
        beh = case['behs'][t]
        if cls is U.TRw:
            beh = f' {beh.upper()} '          # spelt non-canonically; the type's post_init canonicalises it
        obj = cls(label=t, deps=deps, beh=beh, reads=tuple(case['reads'][t]))
        self.all_objects.append(obj)
        return obj

    def _fresh(self, t, mode):
        if mode == 1:
            return self._make(t, self.canon[t].deps)
        return self._make(t, self._struct(self.case['specs'][t], fresh_children=True, respell=(mode == 3)))


    def _struct(self, spec, fresh_children=False, respell=False):
        k = spec[0]
        if k == 'task':
            _, d, mode = spec
            if fresh_children:
                return self._fresh(d, 1)
            return self.canon[d] if mode == 0 else self._fresh(d, mode)
        if k == 'scalar':
            v = spec[1]
            if respell and isinstance(v, (bool, int)):
                return 0.0 if (v is False or (v == 0 and not isinstance(v, bool))) else (1 if v is True else v)
            return v
        if k == 'dict':
            entries = list(spec[1])
            if respell:       # scalar-valued entries first: the order of the tasks inside (what run() reads) is unchanged
                entries = [e for e in entries if e[1][0] == 'scalar'] + [e for e in entries if e[1][0] != 'scalar']
            return {key: self._struct(x, fresh_children, respell) for key, x in entries}
        items = [self._struct(x, fresh_children, respell) for x in spec[1]]
        return items if k == 'list' else tuple(items)


# ------------------------------------------------------------------ runners

EXTERNAL_REMOVE_RECORDING = False
ACTIVE_REC = None


class HarnessTimeout(BaseException):
    """Raised in the calling thread by the watchdog when run_tasks does not end."""


class watchdog:
    def __init__(self, seconds):
        self.seconds = seconds

    def __enter__(self):
        import signal

        def on_alarm(signum, frame):
            raise HarnessTimeout(f'run_tasks still running after {self.seconds}s')
        self.old = signal.signal(signal.SIGALRM, on_alarm)
        signal.setitimer(signal.ITIMER_REAL, self.seconds)
        return self

    def __exit__(self, *a):
        import signal
        signal.setitimer(signal.ITIMER_REAL, 0)
        signal.signal(signal.SIGALRM, self.old)
        return False


class Deadlock(Exception):
    pass


class L1Runner(Runner):
    """Runs the real run_or_load_task in-process; a seeded schedule decides which in-flight tasks complete in
    each wait() and in which order."""

    def __init__(self, *, context, storage, max_workers, rng, rec):
        self.context, self.storage, self.rng, self.rec = context, storage, rng, rec
        self.inflight = []
        self.results_map = {}

    def submit_task(self, task, task_name, use_cache):
        self.rec.on_submit(task, use_cache, [t for t, _, _ in self.inflight])
        self.inflight.append((task, task_name, use_cache))

    def wait(self, *, timeout_seconds):
        self.rec.on_wait([t for t, _, _ in self.inflight])
        if not self.inflight:
            raise Deadlock('wait() with nothing in flight')
        k = self.rng.choice([0, 1, 1, 1, 2, 2, 3, len(self.inflight)])
        batch = self.rng.sample(self.inflight, min(k, len(self.inflight)))
        for item in batch:
            task, name, use_cache = item
            self.inflight.remove(item)
            try:
                for d in U.flat([getattr(task, f) for f in ('deps',)]):
                    d._set_results_map(self.results_map)
                res = run_or_load_task(task=task, task_name=name, use_cache=use_cache,
                                       filtered_context=task.filter_context(self.context), storage=self.storage)
            except KeyboardInterrupt:
                raise
            except BaseException as ex:
                self.rec.on_finish(task, None)
                yield (task, ex)
            else:
                self.results_map[task] = res
                self.rec.on_finish(task, res.value)
                yield (task, res.meta)

    def cancel(self):
        self.rec.ev.append(('cancel',))
        self.inflight.clear()

    def stop(self):
        self.rec.ev.append(('stop',))

    def close(self):
        self.rec.on_close(self.results_map)

    def pending_task_count(self):
        return len(self.inflight)

    def get_result(self, task):
        self.rec.on_get(task)
        return self.results_map[task]

    def remove_results(self, tasks):
        tasks = list(tasks)
        self.rec.on_remove(tasks)
        # behaves as the shipped runners do (serial.py / process.py remove_results)
        _shipped_remove(self.results_map, tasks)
        self.rec.on_map(self.results_map)

    def get_task_infos(self):
        return []


def _shipped_remove(results_map, tasks):
    """The L1 runner borrows remove_results from the real SerialRunner so that the shipped code decides."""
    from labtech.runners.serial import SerialRunner
    fake = SerialRunner.__new__(SerialRunner)
    fake.results_map = results_map
    SerialRunner.remove_results(fake, tasks)


class L1Backend(RunnerBackend):
    def __init__(self, rng, rec):
        self.rng, self.rec = rng, rec

    def build_runner(self, *, context, storage, max_workers):
        return L1Runner(context=context, storage=storage, max_workers=max_workers, rng=self.rng, rec=self.rec)


class SpyRunner(Runner):
    """Pass-through around a real runner; records the trace vocabulary of DESIGN Appendix B."""

    def __init__(self, inner, rec):
        self.inner, self.rec = inner, rec
        self.inflight = []

    def submit_task(self, task, task_name, use_cache):
        self.rec.on_submit(task, use_cache, list(self.inflight))
        self.inflight.append(task)
        self.inner.submit_task(task, task_name, use_cache)

    def wait(self, *, timeout_seconds):
        self.rec.on_wait(list(self.inflight))
        yielded = 0
        for task, res in self.inner.wait(timeout_seconds=timeout_seconds):
            if task in self.inflight:
                self.inflight.remove(task)
            if isinstance(res, ResultMeta):
                self.rec.on_finish(task, self.inner.results_map[task].value)
            else:
                self.rec.on_finish(task, None, exc=res)
            yielded += 1
            yield (task, res)
        # (reached only when the caller took everything this call had to give) with scripted workers: every future the executor
        # reported as done in this call has been handed over as a completion
        import exec_h as _X
        sc = _X.SCRIPT
        if sc is not None and getattr(sc, 'last_done_count', None) is not None and yielded < sc.last_done_count:
            sc.violations.append(('completion-withheld', f'the executor reported {sc.last_done_count} finished futures in one wait(); the runner handed over only '
                                                         f'{yielded} of them, the others wait for the next polling round'))
        if sc is not None:
            sc.last_done_count = None

    def cancel(self):
        self.rec.ev.append(('cancel',))
        self.inner.cancel()

    def stop(self):
        self.rec.ev.append(('stop',))
        self.inner.stop()

    def close(self):
        self.rec.on_close(self.inner.results_map)
        self.inner.close()

    def pending_task_count(self):
        return self.inner.pending_task_count()

    def get_result(self, task):
        self.rec.on_get(task)
        return self.inner.get_result(task)

    def remove_results(self, tasks):
        tasks = list(tasks)
        if EXTERNAL_REMOVE_RECORDING:
            # the instrumented inner method records the removal at the moment it has really happened
            global ACTIVE_REC
            ACTIVE_REC = self.rec
            self.inner.remove_results(tasks)
            return
        self.rec.on_remove(tasks)
        self.inner.remove_results(tasks)
        self.rec.on_map(self.inner.results_map)

    def get_task_infos(self):
        return self.inner.get_task_infos()


class SpyBackend(RunnerBackend):
    def __init__(self, inner, rec):
        self.inner, self.rec = inner, rec

    def build_runner(self, *, context, storage, max_workers):
        return SpyRunner(self.inner.build_runner(context=context, storage=storage, max_workers=max_workers), self.rec)


class Recorder:
    def __init__(self, tid_of):
        self.tid_of = tid_of
        self.ev = []            # flat event list
        self.batches = []       # per wait(): list of [tid, remove_order]
        self.final_rmap = None
        self.excs = {}

    def tid(self, task):
        return self.tid_of[task]

    def on_submit(self, task, uc, inflight):
        self.ev.append(('submit', self.tid(task), bool(uc), [self.tid(t) for t in inflight]))

    def on_wait(self, inflight):
        # a coordinator that polls again and again with nothing in flight is spinning: end the run now ('hang')
        # instead of recording 45 s worth of empty polls
        self.idle_polls = 0 if inflight else getattr(self, 'idle_polls', 0) + 1
        if self.idle_polls >= 50:
            raise HarnessTimeout('spinning: 50 consecutive wait() calls with nothing in flight')
        self.ev.append(('wait', [self.tid(t) for t in inflight]))
        self.batches.append([])

    def on_finish(self, task, value, exc=None):
        self.ev.append(('finish', self.tid(task), value))
        if exc is not None:
            self.excs[self.tid(task)] = type(exc).__name__
        self.batches[-1].append([self.tid(task), []])

    def on_get(self, task):
        self.ev.append(('get', self.tid(task)))

    def on_remove(self, tasks):
        order = [self.tid(t) for t in tasks]
        self.ev.append(('remove', order))
        if self.batches and self.batches[-1]:
            self.batches[-1][-1][1] = order

    def on_map(self, results_map):
        self.ev.append(('map', sorted(self.tid_of.get(t, 9999) for t in results_map)))

    def on_close(self, results_map):
        self.final_rmap = sorted(self.tid_of.get(t, 9999) for t in results_map)      # 9999: a task this run never saw
        self.ev.append(('close',))


# ------------------------------------------------------------------ running one case against the real code

def run_case(case, workdir=None, backend_factory=None, catch_ki=False, around_run=None):
    """Build the graph, run the real Lab.run_tasks under the chosen runner, return the observation dict."""
    built = Built(case)
    rec = Recorder(built.tid_of)
    global ACTIVE_REC
    if EXTERNAL_REMOVE_RECORDING:
        ACTIVE_REC = rec
    own = workdir is None
    workdir = workdir or tempfile.mkdtemp(dir=subdir('sched'))
    storage = None
    if case['storage'] == 'local':
        storage = os.path.join(workdir, 'store')
    rng = random.Random(case['sched_seed'])
    if backend_factory is not None:
        backend = backend_factory(rec)
    elif case['runner'] == 'l1':
        backend = L1Backend(rng, rec)
    else:
        # the backend object is the one Lab itself builds for the backend *name* (the string dispatch is part of the code under test)
        inner = Lab(storage=None, runner_backend=case['runner'], notebook=False).runner_backend
        backend = SpyBackend(inner, rec)
    lab = Lab(storage=storage, continue_on_failure=case['cont'], max_workers=case['max_workers'],
              runner_backend=backend, notebook=False, context={'a': 1})
    pure = pure_ok(case)
    for t in case['pre']:
        obj = built.canon[t]
        obj._lt.cache.save(storage_of(lab), obj, TaskResult(value=pure[t], meta=ResultMeta(
            start=datetime(2020, 1, 1, 0, 0, t), duration=timedelta(seconds=t + 1))))
    obs = dict(outcome=None, returned=None, exc=None)
    import contextlib
    recdir = None
    if case['runner'] == 'serial' and backend_factory is None and not os.environ.get('LV_RECDIR'):
        # where did the tasks of a serial run execute?
        recdir = os.path.join(workdir, 'rec')
        os.makedirs(recdir, exist_ok=True)
        os.environ['LV_RECDIR'] = recdir
    try:
        with watchdog(case.get('watchdog_s', 45)):
            with (around_run if around_run is not None else contextlib.nullcontext()):
                res = lab.run_tasks(built.req, bust_cache=case['bust'], disable_progress=not case.get('progress'), disable_top=not case.get('top'))
    except HarnessTimeout as e:
        obs['outcome'] = 'hang'
        obs['exc'] = repr(e)
    except Deadlock:
        obs['outcome'] = 'stuck'
    except LabError as e:
        obs['outcome'] = 'laberror'
        obs['exc'] = repr(e)
        obs['cause'] = type(e.__cause__).__name__ if e.__cause__ is not None else None
    except KeyError as e:
        obs['outcome'] = 'keyerror'
        obs['exc'] = repr(e)[:200]
    except KeyboardInterrupt as e:
        if not catch_ki:
            raise
        obs['outcome'] = 'interrupt'
        obs['exc'] = repr(e)[:200]
    except BaseException as e:   # noqa
        obs['outcome'] = 'other'
        obs['exc'] = repr(e)[:300]
    else:
        obs['outcome'] = 'returned'
        obs['returned'] = [[built.tid_of[k], v] for k, v in res.items()]
        obs['returned_identity_ok'] = all(any(k is r for r in built.req) for k in res)
    if recdir is not None:
        os.environ.pop('LV_RECDIR', None)
        import threading
        elsewhere = 0
        for fn in os.listdir(recdir):
            with open(os.path.join(recdir, fn)) as fh:
                r = json.load(fh)
            if r['kind'] == 'start' and (r['pid'] != os.getpid() or r['thread'] != threading.get_ident()):
                elsewhere += 1
            if r['kind'] == 'start':
                obs.setdefault('start_times', {})[r['label']] = max(r['t'], obs.get('start_times', {}).get(r['label'], 0))
            if r['kind'] == 'end' and 'wall' in r:
                obs.setdefault('_end_wall', {})[r['label']] = max(r['wall'], obs.get('_end_wall', {}).get(r['label'], 0))
        obs['serial_elsewhere'] = elsewhere
        # the recorded start of an executed task was taken before its run() began, hence before run() wrote its own 'end' record
        late = []
        for label, end_wall in obs.pop('_end_wall', {}).items():
            for o in built.all_objects:
                if o.label == label and o.result_meta is not None and o.result_meta.start is not None:
                    if o.result_meta.start.timestamp() > end_wall + 1e-4:
                        late.append(label)
                    break
        obs['meta_start_after_run'] = sorted(set(late))
    obs['events'] = rec.ev
    obs['batches'] = rec.batches
    obs['final_rmap'] = rec.final_rmap
    obs['excs'] = rec.excs
    obs['final_store'] = sorted(t for t in range(case['n']) if lab.is_cached(built.canon[t]))
    unloadable = []
    for t in obs['final_store']:
        try:
            built.canon[t]._lt.cache.load_result_with_meta(storage_of(lab), built.canon[t])
        except BaseException:   # noqa
            unloadable.append(t)
    obs['unloadable'] = unloadable
    # after the call nothing may still be readable through the task objects (a runner that hands tasks private copies of
    # results keeps them alive however empty its own map is)
    readable = []
    for o in built.all_objects:
        try:
            o.result
            readable.append(built.tid_of.get(o, -1))
        except BaseException:   # noqa
            pass
    obs['readable_after'] = sorted(set(readable))
    # result_meta marks on every instance reachable from the requested objects through executed tasks
    finished_ok = {e[1] for e in rec.ev if e[0] == 'finish' and e[2] is not None}
    loaded = {e[1] for e in rec.ev if e[0] == 'submit' and e[2]}
    unmarked, seen, todo = [], set(), list(built.req)
    while todo:
        o = todo.pop()
        if id(o) in seen:
            continue
        seen.add(id(o))
        t = built.tid_of[o]
        if t in finished_ok and o.result_meta is None:
            unmarked.append(t)
        if t not in loaded:
            todo += U.flat(o.deps)
    obs['unmarked'] = sorted(unmarked)
    # the object layer as labtech's own search sees it (Model/ObjPlan.v): every object built for this case in creation
    # order, the dependency instances of each, the requested objects, and which objects ended up marked
    from labtech.tasks import get_direct_dependency_instances
    oid = {id(o): i for i, o in enumerate(built.all_objects)}
    try:
        obs['objects'] = dict(
            cls=[o.label for o in built.all_objects],
            # the harness's own traversal of the parameter tree (every occurrence, duplicates kept) ...
            kids=[[oid.get(id(k), 9999) for k in U.flat(o.deps)] for o in built.all_objects],
            # ... which labtech's search must agree with
            kids_real=[[oid.get(id(k), 9999) for k in get_direct_dependency_instances(o)] for o in built.all_objects],
            req=[oid[id(o)] for o in built.req],
            ok=sorted(finished_ok),
            marked=sorted(i for i, o in enumerate(built.all_objects) if o.result_meta is not None))
    except BaseException as e:   # noqa
        obs['objects'] = dict(error=repr(e)[:200])
    if own:
        shutil.rmtree(workdir, ignore_errors=True)
    return obs


# ------------------------------------------------------------------ emission

def emit_cfg(case):
    n = case['n']
    deps = [deps_of(case, t) for t in range(n)]
    reads = []
    for t in range(n):
        found = flat_spec(case['specs'][t])
        reads.append([found[i] for i in case['reads'][t]])
    pure = pure_ok(case)
    cacheable = [c and case['storage'] == 'local' for c in CACHEABLE]
    return ('{| ntasks := %d; deps := %s; reads := %s; behs := %s; ty := %s; maxpar := %s; cacheable := %s; '
            'req := %s; pre := %s; bust := %s; cont := %s |}' % (
                n, g_list([g_nats(d) for d in deps]), g_list([g_nats(r) for r in reads]),
                g_list(['BOk' if b == 'ok' else 'BRaise' for b in case['behs']]),
                g_nats(case['types']), g_list([g_opt(m) for m in MAXPAR]),
                g_list([g_bool(c) for c in cacheable]),
                g_nats([t for t, _ in case['req']]),
                g_list([g_pair(t, g_val(pure[t])) for t in case['pre']]),
                g_bool(case['bust']), g_bool(case['cont'])))


def emit_ocase(case, obs):
    og = obs['objects']
    return ('{| oc_cfg := %s; oc_graph := {| nobj := %d; ocls := %s; okids := %s; oreq := %s |}; oc_ok := %s; oc_marked := %s |}' % (
        emit_cfg(case), len(og['cls']), g_nats(og['cls']), g_list([g_nats(k) for k in og['kids']]), g_nats(og['req']),
        g_nats(og['ok']), g_nats(og['marked'])))


def emit_events(obs):
    out = []
    for e in obs['events']:
        if e[0] == 'submit':
            out.append(f'ESubmit {e[1]} {g_bool(e[2])}')
        elif e[0] == 'finish':
            out.append(f'EFinish {e[1]} {g_opt(None if e[2] is None else g_val_safe(e[2]))}')
        elif e[0] == 'get':
            out.append(f'ECapture {e[1]}')
        elif e[0] == 'remove':
            out.append(f'ERelease {g_nats(sorted(set(e[1])))}')
    return g_list(out)


def g_val_safe(v):
    try:
        return g_val(v)
    except (AssertionError, TypeError, ValueError, IndexError):
        return '(Node 999999 [])'


def emit_outcome(obs):
    o = obs['outcome']
    if o == 'returned':
        return 'Returned ' + g_list([g_pair(t, g_val_safe(v)) for t, v in obs['returned']])
    if o == 'laberror':
        fails = [e[1] for e in obs['events'] if e[0] == 'finish' and e[2] is None]
        return f'RaisedLabError {fails[-1]}' if fails else 'BadOracle'
    if o == 'keyerror':
        return 'RaisedKeyError'
    if o == 'stuck':
        return 'Stuck'
    return 'BadOracle'


def emit_case(case, obs):
    oracle = g_list([g_list([g_pair(t, g_nats(order)) for t, order in b]) for b in obs['batches']])
    return ('{| k_cfg := %s;\n     k_oracle := %s; k_outcome := %s;\n     k_trace := %s; k_final_rmap := %s; k_final_store := %s |}' % (
        emit_cfg(case), oracle, emit_outcome(obs), emit_events(obs),
        g_nats(obs['final_rmap'] or []), g_nats(obs['final_store'])))


SCHED_IMPORTS = 'Require Import LT.Model.Base LT.Model.Sched LT.Gen.SrcParams.\n'
