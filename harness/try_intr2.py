import sys, random, json
sys.path.insert(0,'/verif/harness')
import sched_h as S, exec_h as X, intr_h as I, common as C
rng = random.Random(int(sys.argv[1]) if len(sys.argv)>1 else 0)
N = int(sys.argv[2]) if len(sys.argv)>2 else 3
P = '{| ip := sched_params; ip_gen := PopFirst; ip_drain_swallows := true |}'
terms=[]; info=[]
for i in range(N):
    c = S.gen_case(rng, runner='l2', max_n=5, p_fail=0.3, allow_dups=False)
    c['max_workers'] = rng.choice([1,2,3]); c['pre']=[]; c['cont']=False
    obs, oracle, ticker, script = I.run_interrupt(c, None, None)
    total = ticker.n
    for k1 in range(0,total,2):
        for k2 in range(0, 8):
            obs, oracle, ticker, script = I.run_interrupt(c, k1, k2)
            term_tids = [script.submit_tids[f] for f in script.terminated_fids]
            terms.append(I.emit_icase(c, obs, oracle, k1, k2, term_tids)); info.append((c,k1,k2,obs,ticker.fired))
    print('case', i, 'ticks', total)
from collections import Counter
print(Counter((o['outcome'],f) for _,_,_,o,f in info))
bad = C.coq_failing('tryi2', I.INTR_IMPORTS, terms, f'check_icase {P}')
print('mismatch', len(bad), bad[:20])
for b in bad[:2]:
    c,k1,k2,o,f = info[b]; print(json.dumps(c)); print(k1,k2,o['outcome'],o.get('exc')); print(o['events']); print(terms[b][-700:])
for (c,k1,k2,o,f) in info:
    if f>=1 and o['outcome']!='interrupt': print('NONKI', k1,k2,o['outcome'],o.get('exc'), json.dumps(c)); break
