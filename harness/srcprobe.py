"""Behavioural fallback for harness/srcparams.py.

When the shape of a function is not one the ast extraction recognises (a harmless rewrite is enough for that), the
parameter is inferred instead by running the function itself, in this interpreter, on a few decisive inputs: each
probe distinguishes the enumerated alternatives of ParamTypes.v and answers None (-> the Unknown constructor, proof
obligations break) unless the observed behaviour is exactly that of one alternative.  A probed value is weaker
evidence than a recognised statement: it is a finite test.  What it selects is the model instance whose theorems
are re-checked; the correspondence stages then compare that instance with the code on generated runs as before.
srcparams records every parameter obtained this way (evidence field srcparams_inferred)."""
import contextlib
import io
import logging
import os
import shutil
import tempfile
import time
from types import SimpleNamespace


@contextlib.contextmanager
def _quiet():
    lg = logging.getLogger('labtech')
    lvl = lg.level
    lg.setLevel(logging.CRITICAL)
    try:
        with contextlib.redirect_stderr(io.StringIO()), contextlib.redirect_stdout(io.StringIO()):
            yield
    finally:
        lg.setLevel(lvl)


def _types():
    import labtech

    @labtech.task(cache=None, max_parallel=1)
    class ProbeOne:
        n: int

        def run(self):
            return self.n

    @labtech.task(cache=None, max_parallel=2)
    class ProbeTwo:
        n: int

        def run(self):
            return self.n

    @labtech.task(cache=None)
    class ProbeFree:
        n: int

        def run(self):
            return self.n

    @labtech.task(cache=None)
    class ProbeParent:
        dep: object

        def run(self):
            return 0

    @labtech.task(cache=None, max_parallel=1)
    class ProbeOneDep:
        dep: object

        def run(self):
            return 0

    @labtech.task(cache=None)
    class ProbeNone:
        n: int

        def run(self):
            return None

    @labtech.task(cache=None)
    class ProbeFail:
        n: int

        def run(self):
            raise ValueError('probe')

    return ProbeOne, ProbeTwo, ProbeFree, ProbeParent, ProbeFail, ProbeOneDep, ProbeNone


def probe_ready():
    """(p_cmp, p_dep_guard) from TaskState.get_ready_tasks on five small states."""
    from labtech.lab import TaskState
    One, Two, Free, Parent, _, OneDep, _ = _types()
    coord = SimpleNamespace(use_cache=lambda task: False)

    def ready(tasks, start=()):
        st = TaskState(coordinator=coord, tasks=tasks)
        for t in start:
            st.start_task(t)
        return list(st.get_ready_tasks())

    cmp_ = dep = None
    try:
        a = [One(n=i) for i in range(3)]
        b = [Two(n=i) for i in range(4)]
        f = [Free(n=i) for i in range(3)]
        obs = (len(ready(a)), len(ready(b)), len(ready(f)), len(ready(a, start=a[:1])), len(ready(b, start=b[:1])),
               len(ready(b, start=b[:2])))
        if obs == (1, 2, 3, 0, 1, 0):
            cmp_ = 'CmpGe'
        elif obs == (2, 3, 3, 1, 2, 1):
            cmp_ = 'CmpGt'
        # order: the ready tasks are the oldest pending ones
        if cmp_ == 'CmpGe' and not (ready(a) == a[:1] and ready(b) == b[:2] and ready(f) == f):
            cmp_ = None
        # a task at its type's limit is passed over, later tasks of other types are still considered; a task waiting
        # for a dependency does not use up a place of its type
        x, y = OneDep(dep=Free(n=9)), OneDep(dep=None)
        if cmp_ == 'CmpGe' and not (ready([a[0], a[1], f[0], b[0]]) == [a[0], f[0], b[0]] and ready([x, y]) == [y, x.dep]
                                    and ready([b[0], x, b[1], b[2], y]) == [b[0], b[1], y, x.dep]):
            cmp_ = None
        d = Free(n=7)
        p = Parent(dep=d)
        pp = Parent(dep=p)
        r1 = ready([pp, p, d])
        r2 = ready([pp])
        if r1 == [d] and r2 == [d]:
            dep = 'true'
    except Exception:
        return None, None
    return cmp_, dep


def probe_missing():
    """p_missing from remove_results of both runners on [absent, present]."""
    from labtech.runners.process import ProcessRunner
    from labtech.runners.serial import SerialRunner
    Free = _types()[2]
    modes = []
    for cls in (SerialRunner, ProcessRunner):
        try:
            absent, present, other = Free(n=1), Free(n=2), Free(n=3)
            fake = SimpleNamespace(results_map={present: 'r', other: 'o'})
            cls.remove_results(fake, [absent, present])
            left = set(fake.results_map)
            if left == {other}:
                modes.append('MContinue')
            elif left == {present, other}:
                modes.append('MReturn')
            else:
                modes.append(None)
        except Exception:
            modes.append(None)
    return modes[0] if modes[0] == modes[1] else None


def probe_final():
    """p_final from Lab.run_tasks with one failing task and continue_on_failure."""
    import labtech
    _, _, Free, _, Fail, _, Nothing = _types()
    try:
        with _quiet():
            lab = labtech.Lab(storage=None, continue_on_failure=True, runner_backend='serial')
            good, bad, nothing, zero = Free(n=1), Fail(n=2), Nothing(n=3), Free(n=0)
            try:
                res = lab.run_tasks([good, bad, nothing, zero], disable_progress=True, disable_top=True)
            except KeyError:
                return 'FIndex'
        if res == {good: 1, nothing: None, zero: 0} and list(res) == [good, nothing, zero]:
            return 'FFilter'
    except BaseException:
        pass
    return None


class _Dummy:
    made = []
    via = None
    pid = 0
    exitcode = None

    def __init__(self, *a, **kw):
        self.alive, self.started = True, False
        _Dummy.made.append(self)

    def start(self):
        self.started = True

    def is_alive(self):
        return self.alive

    def terminate(self):
        self.alive = False

    kill = terminate

    def join(self, *a):
        pass


class _CtxProc(_Dummy):
    via = 'ctx'


class _ModProc(_Dummy):
    via = 'module'


def probe_exec():
    """(start_policy, proc_ctor, wait_policy) from a ProcessExecutor whose worker processes are inert stand-ins."""
    import multiprocessing
    import labtech.runners.process as P
    fork = multiprocessing.get_context('fork')

    class Ctx:
        Process = _CtxProc

        def __getattr__(self, name):
            return getattr(fork, name)

    start = ctor = wait = None
    saved = multiprocessing.Process
    try:
        ex = P.ProcessExecutor(mp_context=Ctx(), max_workers=2)
        ex1 = P.ProcessExecutor(mp_context=Ctx(), max_workers=1)
        multiprocessing.Process = _ModProc
        _Dummy.made = []
        futs = [ex.submit(int) for _ in range(5)]
        made = _Dummy.made

        def total():
            return len([p for p in made if p.started]) if all(p.started for p in made) else -1
        totals = [total()]
        if totals == [2]:
            # a normal completion (result handed back, process gone), a silent death, a result whose process is still
            # alive, then nothing pending, then two more submissions while both places are taken, then a completion
            def finish(i, result=True, dead=True):
                if result:
                    ex._result_queue.put((futs[i].id, 'r%d' % i))
                if dead:
                    made[i].alive = False
                ex.wait(futs, timeout_seconds=0.05 if result else 0)
                totals.append(total())
            finish(0)
            finish(1, result=False)
            finish(2, dead=False)
            made[2].alive = False
            ex.wait(futs, timeout_seconds=0)
            totals.append(total())
            futs += [ex.submit(int) for _ in range(2)]
            totals.append(total())
            finish(3)
            running = sorted(ex._running_id_to_future_and_process) if hasattr(ex, '_running_id_to_future_and_process') else None
            if totals == [2, 3, 4, 5, 5, 5, 6] and [f.done for f in futs] == [True, True, True, True, False, False, False]:
                start = 'StartUpToMax'
        elif totals == [5]:
            start = 'StartAllPending'
        vias = {p.via for p in _Dummy.made}
        if vias == {'ctx'}:
            ctor = 'CtorMpContext'
        elif vias == {'module'}:
            ctor = 'CtorModuleDefault'
        # a dead worker is noticed and its slot refilled in the same wait call, with no result received
        _Dummy.made = []
        f1 = [ex1.submit(int) for _ in range(2)]
        if len(_Dummy.made) == 1 and _Dummy.made[0].started:
            _Dummy.made[0].alive = False
            done, not_done = ex1.wait(f1, timeout_seconds=0)
            if len(done) == 1 and done[0] is f1[0] and len(_Dummy.made) == 2 and _Dummy.made[1].started:
                wait = 'WaitAlwaysStarts'
        del futs
    except Exception:
        pass
    finally:
        multiprocessing.Process = saved
    return start, ctor, wait


def probe_snapshot():
    """snap_pos: a worker delivers its result and exits right after the executor's drain of the result queue (the join of its
    consumer thread): is that worker's future failed as dead in this very call (liveness sampled after the drain), or left for
    the next call, which then finds the result (sampled before)?"""
    import multiprocessing
    import threading
    import labtech.runners.process as P
    if getattr(P, 'Thread', None) is not threading.Thread:
        return None
    fork = multiprocessing.get_context('fork')

    class Ctx:
        Process = _CtxProc

        def __getattr__(self, name):
            return getattr(fork, name)
    hook = {}

    class HookThread(threading.Thread):
        def join(self, timeout=None):
            super().join(timeout)
            if self.is_alive():
                return
            cb = hook.pop('cb', None)
            if cb is not None:
                cb()
    saved = P.Thread
    try:
        ex = P.ProcessExecutor(mp_context=Ctx(), max_workers=1)
        _Dummy.made = []
        f = ex.submit(int)
        if len(_Dummy.made) != 1:
            return None
        P.Thread = HookThread

        def late():
            ex._result_queue.put((f.id, 'late-result'))
            time.sleep(0.05)
            _Dummy.made[0].alive = False
        hook['cb'] = late
        ex.wait([f], timeout_seconds=0)
        if 'cb' in hook:
            return None                      # the drain does not go through a joined thread: nothing observed
        first_done = f.done
        if first_done:
            try:
                f.result()
                return None
            except BaseException:
                return 'SnapAfter'
        ex.wait([f], timeout_seconds=0.5)
        if f.done and f.result() == 'late-result':
            return 'SnapBefore'
    except Exception:
        return None
    finally:
        P.Thread = saved
    return None


def probe_launch():
    """launch_order: interrupt the launch of a worker at every line boundary of the executor code below submit(); afterwards
    cancel() and stop() must reach the future (it is pending or running), at whichever line the interrupt landed."""
    import multiprocessing
    import sys
    import labtech.runners.process as P
    fork = multiprocessing.get_context('fork')

    class Ctx:
        Process = _CtxProc

        def __getattr__(self, name):
            return getattr(fork, name)
    made = []

    class RecFuture(P.Future):
        def __init__(self, *a, **kw):
            super().__init__(*a, **kw)
            made.append(self)
    saved = P.Future

    def attempt(target):
        ex = P.ProcessExecutor(mp_context=Ctx(), max_workers=1)
        del made[:]
        count = [0]

        def local(frame, event, arg):
            if event == 'line':
                n = count[0]
                count[0] += 1
                if target is not None and n == target:
                    raise KeyboardInterrupt()
            return local

        def glob(frame, event, arg):
            if frame.f_code.co_filename == P.__file__ and frame.f_code.co_name not in ('submit', '__init__', '__hash__', '__eq__'):
                return local
            return None
        sys.settrace(glob)
        try:
            try:
                ex.submit(int)
            except KeyboardInterrupt:
                pass
        finally:
            sys.settrace(None)
        lost = False
        if made:
            ex.cancel()
            ex.stop()
            lost = not made[0].done
        return count[0], lost
    try:
        P.Future = RecFuture
        total, _ = attempt(None)
        if not 3 <= total <= 200:
            return None
        results = [attempt(k)[1] for k in range(total)]
        return 'RemoveThenRegister' if any(results) else 'RegisterThenRemove'
    except Exception:
        return None
    finally:
        P.Future = saved
        sys.settrace(None)


def probe_storage():
    """storage guards of LocalStorage, observed on a scratch directory tree (None where the behaviour is not exactly
    that of the guard)."""
    from labtech.exceptions import StorageError
    from labtech.storage import LocalStorage
    out = dict(g_empty=None, g_chars=None, g_key_parent=None, g_file_parent=None, g_delete_validates=None)
    root = tempfile.mkdtemp(prefix='lvprobe')
    try:
        sdir = os.path.join(root, 'store')
        st = LocalStorage(sdir, with_gitignore=False)
        outside = os.path.join(root, 'outside')
        os.makedirs(outside)
        with open(os.path.join(outside, 'secret'), 'w') as f:
            f.write('s')
        os.makedirs(os.path.join(sdir, 'k1'))
        with open(os.path.join(sdir, 'k1', 'f'), 'w') as f:
            f.write('v')
        os.symlink(outside, os.path.join(sdir, 'lnk'))
        os.symlink(os.path.join(outside, 'secret'), os.path.join(sdir, 'k1', 'flnk'))
        os.makedirs(os.path.join(sdir, 'k2'))
        with open(os.path.join(sdir, 'k2', 'g'), 'w') as f:
            f.write('w')

        def rejects(fn):
            try:
                r = fn()
                if hasattr(r, 'close'):
                    r.close()
            except StorageError:
                return True
            except Exception:
                return None
            return False

        ops = (lambda k: st.exists(k), lambda k: st.file_handle(k, 'f', mode='r'), lambda k: st.delete(k))
        if all(rejects(lambda op=op: op('')) is True for op in ops):
            out['g_empty'] = 'true'
        chars = ['.', '/', '\\', os.path.sep]
        # ... and nothing else is forbidden: every other character is accepted in a key
        fine = 'aZ09_- +=@:,;()[]{}~!#$%^&\u00e9\u5b9f\u0416'
        if (all(rejects(lambda op=op, c=c: op('a' + c + 'b')) is True and rejects(lambda op=op, c=c: op(c)) is True
                for op in ops[:2] for c in chars)
                and all(rejects(lambda c=c: st.exists('a' + c + 'b')) is False for c in fine)):
            out['g_chars'] = [ord(c) for c in chars]
        os.makedirs(os.path.join(sdir, 'k1', 'deep'))
        os.symlink(os.path.join(sdir, 'k1', 'deep'), os.path.join(sdir, 'lnk_in'))
        os.symlink(sdir, os.path.join(sdir, 'lnk_self'))
        os.symlink(os.path.join(outside, 'nowhere'), os.path.join(sdir, 'lnk_dangling'))
        os.makedirs(os.path.join(sdir, 'k3'))
        first = rejects(lambda: st.exists('k3'))
        shutil.rmtree(os.path.join(sdir, 'k3'))
        os.symlink(outside, os.path.join(sdir, 'k3'))
        if (rejects(lambda: st.exists('lnk')) is True and rejects(lambda: st.file_handle('lnk', 'secret', mode='r')) is True
                and rejects(lambda: st.exists('k1')) is False and first is False and rejects(lambda: st.exists('k3')) is True
                and rejects(lambda: st.file_handle('k3', 'secret', mode='r')) is True
                and rejects(lambda: st.exists('lnk_in')) is True and rejects(lambda: st.exists('lnk_self')) is True
                and rejects(lambda: st.exists('lnk_dangling')) is True
                and rejects(lambda: st.file_handle('lnk_dangling', 'x', mode='w')) is True
                and not os.path.exists(os.path.join(outside, 'nowhere'))):
            out['g_key_parent'] = 'true'
        if (rejects(lambda: st.file_handle('k1', 'flnk', mode='r')) is True
                and rejects(lambda: st.file_handle('k1', '../k2/g', mode='r')) is True
                and rejects(lambda: st.file_handle('k1', 'sub/x', mode='r')) is True
                and rejects(lambda: st.file_handle('k1', 'f', mode='r')) is False):
            out['g_file_parent'] = 'true'
        if (rejects(lambda: st.delete('lnk')) is True and rejects(lambda: st.delete('..')) is True
                and os.path.exists(os.path.join(outside, 'secret')) and os.path.exists(os.path.join(sdir, 'k2', 'g'))
                and rejects(lambda: st.delete('k2')) is False and not os.path.exists(os.path.join(sdir, 'k2'))
                and os.path.exists(os.path.join(sdir, 'k1', 'f'))):
            out['g_delete_validates'] = 'true'
    except Exception:
        pass
    finally:
        shutil.rmtree(root, ignore_errors=True)
    return out


# ------------------------------------------------------------------ cache.py

def probe_cache():
    """(save_order, save_cleanup) from BaseCache.save over an in-memory storage that can fail at any of its steps."""
    import datetime
    from labtech.types import ResultMeta, Storage, TaskResult
    import lv_probe_types as T

    class Fault(Exception):
        pass

    class Handle:
        def __init__(self, st, key, name, binary):
            self.st, self.key, self.name = st, key, name
            self.buf = io.BytesIO() if binary else io.StringIO()

        def write(self, data):
            self.st.event('write', self.name)
            return self.buf.write(data)

        def __enter__(self):
            return self

        def __exit__(self, *exc):
            self.close()
            return False

        def close(self):
            self.st.event('close', self.name)
            self.st.files[(self.key, self.name)] = self.buf.getvalue()

    class Mem(Storage):
        def __init__(self, fault_at=None, exc=None):
            self.files, self.log, self.fault_at, self.exc = {}, [], fault_at, exc

        def event(self, kind, name):
            self.log.append((kind, name))
            if self.fault_at is not None and len(self.log) - 1 == self.fault_at:
                raise self.exc('probe')

        def find_keys(self):
            return sorted({k for k, _ in self.files})

        def exists(self, key):
            return any(k == key for k, _ in self.files)

        def file_handle(self, key, filename, *, mode='r'):
            self.event('open', filename)
            return Handle(self, key, filename, 'b' in mode)

        def delete(self, key):
            self.log.append(('delete', key))
            for kf in [kf for kf in self.files if kf[0] == key]:
                del self.files[kf]

    order = cleanup = None
    try:
        task = T.PLeaf(x=1)
        cache = task._lt.cache
        res = TaskResult(value=5, meta=ResultMeta(start=datetime.datetime(2020, 1, 1), duration=datetime.timedelta(seconds=1)))
        clean = Mem()
        cache.save(clean, task, res)
        opens = [n for k, n in clean.log if k == 'open']
        if len(opens) == 2 and len(set(opens)) == 2 and not any(k == 'delete' for k, _ in clean.log):
            first_closed = clean.log.index(('close', opens[0])) < clean.log.index(('open', opens[1]))
            if opens[0] == cache.METADATA_FILENAME and first_closed:
                order = 'MetaThenData'
            elif opens[1] == cache.METADATA_FILENAME and first_closed:
                order = 'DataThenMeta'
        seen = set()
        for i in range(len(clean.log)):
            for exc in (Fault, KeyboardInterrupt):
                st = Mem(fault_at=i, exc=exc)
                try:
                    cache.save(st, task, res)
                    seen.add('no-raise')
                except exc:
                    deleted = ('delete', task.cache_key) in st.log[i + 1:]
                    seen.add('delete' if deleted and not st.exists(task.cache_key) else
                             'keep' if not any(k == 'delete' for k, _ in st.log) else 'other')
                except BaseException:
                    seen.add('other-exception')
        if seen == {'delete'}:
            cleanup = 'CleanupDelete'
        elif seen == {'keep'}:
            cleanup = 'NoCleanup'
    except BaseException:
        pass
    return order, cleanup


# ------------------------------------------------------------------ tasks.py / serialization.py

def probe_values():
    """deser, setstate, getstate and keymode, observed on small tasks."""
    from labtech.serialization import Serializer
    import lv_probe_types as T
    import json
    out = dict(deser=None, setstate=None, getstate=None, keymode=None, sermode=None)
    try:
        ser = Serializer()
        t = T.PBox(v=[T.PLeaf(x=1), {'k': T.PLeaf(x=2), 'e': T.PColor.RED, 'l': [T.PLeaf(x=3)]}, [[T.PColor.BLUE]]])
        back = ser.deserialize_task(ser.serialize_task(t), result_meta=None)
        if (back == t and isinstance(back.v[0], T.PLeaf) and isinstance(back.v[1]['k'], T.PLeaf) and back.v[1]['e'] is T.PColor.RED
                and isinstance(back.v[1]['l'][0], T.PLeaf) and back.v[2][0][0] is T.PColor.BLUE):
            out['deser'] = 'DRecursive'
        else:
            top = ser.deserialize_value(ser.serialize_value([T.PLeaf(x=1)]))
            direct = ser.deserialize_value(ser.serialize_value(T.PLeaf(x=1)))
            if isinstance(direct, T.PLeaf) and isinstance(top, list) and isinstance(top[0], dict):
                out['deser'] = 'DShallow'
    except BaseException:
        pass
    try:
        t = T.PPost(x=3)
        object.__setattr__(t, 'extra', 1)
        t.set_context({'a': 1})
        t._set_results_map({T.PLeaf(x=1): 'r'})
        st = t.__getstate__()
        if set(st) == {'x', '_lt', '_is_task', 'cache_key', '_results_map'} and st['_results_map'] is None and st['x'] == 3:
            out['getstate'] = 'GSWhitelist'
        elif 'extra' in st and 'context' in st and 'derived' in st:
            out['getstate'] = 'GSVars'
    except BaseException:
        pass
    try:
        src = T.PPost(x=3)
        obj = object.__new__(T.PPost)
        obj.__setstate__({'x': 3, '_lt': src._lt, '_is_task': True, 'cache_key': src.cache_key, '_results_map': None})
        d = vars(obj)
        if d.get('derived') == 6 and 'context' in d and d['context'] is None and 'result_meta' in d and d['result_meta'] is None and d['x'] == 3:
            out['setstate'] = 'SSReinit'
        elif 'derived' not in d and 'context' not in d and 'result_meta' not in d and d['x'] == 3:
            out['setstate'] = 'SSPlain'
    except BaseException:
        pass
    try:
        # a dict that spells a serialised task / enum member / wrapped dict, the real things, and near misses
        cls = f'{T.PLeaf.__module__}.PLeaf'
        mimics = [{'_is_task': True, '__class__': cls, 'x': 1}, {'_is_enum': True, '__class__': f'{T.PColor.__module__}.PColor', 'name': 'RED'},
                  {'_is_dict': True, 'items': {'k': 1}}, {'_is_task': 1, 'y': (T.PLeaf(x=2),)}, {'_is_task': False, 'k': {'_is_enum': 'yes'}}]
        reals = [T.PLeaf(x=1), T.PColor.RED, {'k': 1}]
        sers = [json.dumps(ser.serialize_task(T.PBox(v=v))) for v in mimics + reals]
        backs = [ser.deserialize_task(ser.serialize_task(T.PBox(v=v)), result_meta=None) for v in mimics]
        if len(set(sers)) == len(sers) and all(b == T.PBox(v=v) and not isinstance(b.v, (T.PLeaf, T.PColor)) for b, v in zip(backs, mimics)):
            out['sermode'] = 'SerWrapsDicts'
        elif sers[0] == sers[len(mimics)] and sers[1] == sers[len(mimics) + 1]:
            out['sermode'] = 'SerPlainDicts'
    except BaseException:
        if 'sers' in dir() and len(sers) == len(mimics) + len(reals) and sers[0] == sers[len(mimics)]:
            out['sermode'] = 'SerPlainDicts'
    try:
        a, b = T.PRw(s='AB'), T.PRw(s='ab')
        cache = a._lt.cache
        after = cache.cache_key(a)
        object.__setattr__(a, 's', 'AB')
        before = cache.cache_key(a)
        object.__setattr__(a, 's', 'ab')
        if before != after and b.cache_key == after:
            if a.cache_key == after:
                out['keymode'] = 'KeyAfterPostInit'
            elif a.cache_key == before:
                out['keymode'] = 'KeyBeforePostInit'
    except BaseException:
        pass
    return out


# ------------------------------------------------------------------ runners: context, logging, interrupts

def probe_ctx():
    """ctx_sites: what a task's run() sees as its context under each backend."""
    import labtech
    import lv_probe_types as T
    out = {}
    for name in ('serial', 'fork', 'spawn'):
        out[name] = None
        try:
            with _quiet():
                lab = labtech.Lab(storage=None, context={'a': 1, 'b': 2, 'c': 3}, runner_backend=name, max_workers=1)
                t = T.PCtx(n=1)
                res = lab.run_tasks([t], disable_progress=True, disable_top=True)
            if res == {t: [('b', 2), ('c', 3)]}:
                out[name] = 'true'
        except BaseException:
            pass
    return out


def _fake_runner(P, futs, on_consume=None, on_wait=None):
    """A ProcessRunner that was never initialised (no managers, no executor): just the attributes wait() works on."""
    class ProbeRunner(P.ForkProcessRunner):
        pass
    r = object.__new__(ProbeRunner)
    r.future_to_task = dict(futs)
    r.results_map = {}
    r._consume_log_queue = on_consume or (lambda: None)

    def ex_wait(fs, timeout_seconds=None):
        if on_wait:
            on_wait()
        return [f for f, _ in futs], []
    r.executor = SimpleNamespace(wait=ex_wait)
    return r


def probe_log():
    """flush mode of LoggerFileProxy; captured output handed over before the worker function returns; the log queue
    consumed between the executor's wait and the first yielded completion."""
    import labtech.runners.process as P
    from labtech.utils import LoggerFileProxy
    import lv_probe_types as T
    out = dict(flush=None, fb=None, ca=None)
    try:
        rec = []
        p = LoggerFileProxy(rec.append, 'P:')
        p.write('a'); p.write('  \n'); p.write('b'); p.flush(); p.flush(); p.write('c'); p.flush()
        if rec == ['P:a\nP:b', 'P:c']:
            out['flush'] = 'FlushClears'
        elif rec == ['P:a\nP:b', 'P:a\nP:b', 'P:a\nP:b\nP:c']:
            out['flush'] = 'FlushKeeps'
    except BaseException:
        pass
    # the worker function replaces handlers, stdout and the SIGINT disposition: run it in a forked child
    try:
        r, w = os.pipe()
        pid = os.fork()
        if pid == 0:
            code = b'?'
            try:
                os.close(r)

                class Q(list):
                    def put(self, x):
                        self.append(x)

                    put_nowait = put
                logq, evq = Q(), Q()
                from labtech.storage import NullStorage
                P.ProcessRunner._subprocess_func(task=T.PPrint(n=7), task_name='PPrint[1]', use_cache=False, results_map={},
                                                 filtered_context={}, storage=NullStorage(), process_event_queue=evq, log_queue=logq)
                try:
                    P.ProcessRunner._subprocess_func(task=T.PPrintFail(n=8), task_name='PPrintFail[1]', use_cache=False, results_map={},
                                                     filtered_context={}, storage=NullStorage(), process_event_queue=evq, log_queue=logq)
                except ValueError:
                    pass
                texts = [getattr(x, 'getMessage', lambda: '')() for x in logq]
                code = b'1' if any('probe-out-7' in t for t in texts) and any('probe-out-8' in t for t in texts) else b'0'
            except BaseException:
                code = b'?'
            finally:
                os.write(w, code)
                os._exit(0)
        os.close(w)
        code = os.read(r, 1)
        os.close(r)
        os.waitpid(pid, 0)
        if code == b'1':
            out['fb'] = 'true'
    except BaseException:
        pass
    try:
        ev = []
        f1, f2 = P.Future(), P.Future()
        f1.set_result(SimpleNamespace(meta='m1'))
        f2.set_result(SimpleNamespace(meta='m2'))
        fake = _fake_runner(P, [(f1, 't1'), (f2, 't2')], on_consume=lambda: ev.append('consume'), on_wait=lambda: ev.append('exec_wait'))
        gen = fake.wait(timeout_seconds=0)
        first = next(gen)
        if first == ('t1', 'm1') and 'exec_wait' in ev and 'consume' in ev[ev.index('exec_wait') + 1:]:
            out['ca'] = 'true'
        gen.close()
    except BaseException:
        pass
    return out


def probe_gen():
    """gen_mode of ProcessRunner.wait: a completion that was yielded is forgotten even if the caller stops iterating, and a
    KeyboardInterrupt delivered as a worker's outcome is raised, not yielded."""
    import labtech.runners.process as P
    try:
        def fake(futs):
            return _fake_runner(P, futs)
        fs = [P.Future() for _ in range(3)]
        for i, f in enumerate(fs):
            f.set_result(SimpleNamespace(meta='m%d' % i))
        fk = fake([(f, 't%d' % i) for i, f in enumerate(fs)])
        gen = fk.wait(timeout_seconds=0)
        first = next(gen)
        gen.close()
        left = sorted(fk.future_to_task.values())
        gone = P.Future()
        gone.cancel()
        fk2 = fake([(fs[0], 't0'), (gone, 'tc'), (fs[1], 't1'), (fs[2], 't2')])
        full = list(fk2.wait(timeout_seconds=0))
        ok_full = full == [('t0', 'm0'), ('t1', 'm1'), ('t2', 'm2')] and not fk2.future_to_task
        ki = P.Future()
        ki.set_exception(KeyboardInterrupt())
        fk3 = fake([(ki, 'tk')])
        try:
            list(fk3.wait(timeout_seconds=0))
            ki_through = False
        except KeyboardInterrupt:
            ki_through = True
        if first == ('t0', 'm0') and ok_full:
            if left == ['t1', 't2'] and ki_through:
                return 'PopFirst'
            if left == ['t0', 't1', 't2']:
                return 'PruneAfter'
    except BaseException:
        pass
    return None


def probe_bound():
    """run_or_load_task: an exception raised while the process name is being looked up propagates as itself (the finally
    clause does not trip over names that were never bound)."""
    import labtech.runners.base as B
    import lv_probe_types as T
    from labtech.storage import NullStorage

    class Boom(Exception):
        pass

    class MP:
        def __getattr__(self, name):
            import multiprocessing
            return getattr(multiprocessing, name)

        @staticmethod
        def current_process():
            raise Boom()
    saved = B.multiprocessing
    try:
        B.multiprocessing = MP()
        try:
            B.run_or_load_task(task=T.PPrint(n=1), task_name='x', use_cache=False, filtered_context={}, storage=NullStorage())
        except Boom:
            return 'true'
        except BaseException:
            return None
    except BaseException:
        return None
    finally:
        B.multiprocessing = saved
    return None


def probe_interrupt_handlers():
    """(drain_swallows, stop_swallows, stop_cancels) from TaskCoordinator.run over a scripted runner."""
    import labtech
    from labtech.exceptions import LabError
    from labtech.types import ResultMeta, Runner, RunnerBackend, TaskResult
    import datetime
    Free = _types()[2]

    class ScriptRunner(Runner):
        def __init__(self, script, log):
            self.script, self.log, self.running, self.results = list(script), log, [], {}

        def submit_task(self, task, task_name, use_cache):
            self.running.append(task)

        def wait(self, *, timeout_seconds):
            act = self.script.pop(0) if self.script else 'ok-all'
            self.log.append('wait:' + act)
            if act == 'ki':
                raise KeyboardInterrupt()
            if act == 'fail' and self.running:
                yield (self.running.pop(0), ValueError('probe'))
            if act == 'ok-all':
                while self.running:
                    t = self.running.pop(0)
                    self.results[t] = TaskResult(value=0, meta=ResultMeta(start=datetime.datetime(2020, 1, 1), duration=datetime.timedelta(0)))
                    yield (t, self.results[t].meta)

        def cancel(self):
            self.log.append('cancel')

        def stop(self):
            self.log.append('stop')

        def close(self):
            self.log.append('close')

        def pending_task_count(self):
            return len(self.running)

        def get_result(self, task):
            return self.results[task]

        def remove_results(self, tasks):
            pass

        def get_task_infos(self):
            return []

    class Backend(RunnerBackend):
        def __init__(self, script, log):
            self.script, self.log = script, log

        def build_runner(self, *, context, storage, max_workers):
            return ScriptRunner(self.script, self.log)

    def scenario(script):
        log = []
        with _quiet():
            lab = labtech.Lab(storage=None, runner_backend=Backend(script, log))
            try:
                lab.run_tasks([Free(n=i) for i in range(3)], disable_progress=True, disable_top=True)
                return 'returned', log
            except KeyboardInterrupt:
                return 'ki', log
            except LabError:
                return 'laberror', log
            except BaseException as e:
                return type(e).__name__, log

    drain = stop = stopcancel = None
    try:
        how, log = scenario(['ki', 'fail', 'ok-all'])
        if how == 'ki' and log[:2] == ['wait:ki', 'cancel'] and log[2:5] == ['wait:fail', 'wait:ok-all', 'close'] and 'stop' not in log:
            drain = 'true'
        how, log = scenario(['ki', 'ki', 'fail'])
        if how == 'ki' and 'stop' in log:
            after = log[log.index('stop') + 1:]
            if after == ['wait:fail', 'close']:
                stop = 'true'
            between = log[log.index('wait:ki', 1) + 1:log.index('stop')] if log.count('wait:ki') == 2 else []
            if 'cancel' in between:
                stopcancel = 'true'
    except BaseException:
        pass
    return drain, stop, stopcancel


# ------------------------------------------------------------------ all probes, as a program

def _limited(fn, seconds=20):
    """Run one probe; None-valued answer if it raises or does not finish (a change under test may make anything hang)."""
    import signal

    class Expired(BaseException):
        pass

    def on_alarm(signum, frame):
        raise Expired()
    old = signal.signal(signal.SIGALRM, on_alarm)
    signal.alarm(seconds)
    try:
        return fn()
    except BaseException:
        return None
    finally:
        signal.alarm(0)
        signal.signal(signal.SIGALRM, old)


def probe_mark():
    """mark_mode: a task object that is executed a second time (bust_cache) carries the outcome of the second execution."""
    import logging
    import shutil
    import tempfile
    import time
    from labtech.lab import Lab
    from lv_probe_types import PLeaf
    d = tempfile.mkdtemp(prefix='lvprobe_mark')
    try:
        t = PLeaf(x=41)
        with _quiet():
            lab = Lab(storage=d, runner_backend='serial', notebook=False)
            lab.run_tasks([t], disable_progress=True, disable_top=True)
            m1 = t.result_meta
            time.sleep(0.01)
            t0 = __import__('datetime').datetime.now()
            lab.run_tasks([t], bust_cache=True, disable_progress=True, disable_top=True)
            m2 = t.result_meta
        if m1 is None or m2 is None or m1.start is None or m2.start is None:
            return None
        if m2.start >= t0:
            return 'MarkAlways'
        if m2.start == m1.start:
            return 'MarkIfUnset'
        return None
    finally:
        shutil.rmtree(d, ignore_errors=True)


def probe_log_queue():
    """log_queue_kind: the queue-like attribute of a process runner (put / get_nowait) is a Manager proxy, or a multiprocessing
    queue object with a feeder thread."""
    import multiprocessing.managers
    import multiprocessing.queues
    from labtech.runners import ForkRunnerBackend
    from labtech.storage import NullStorage
    r = ForkRunnerBackend().build_runner(context={}, storage=NullStorage(), max_workers=1)
    try:
        qs = [v for v in vars(r).values() if hasattr(v, 'put') and hasattr(v, 'get_nowait')]
        # (the runner may hold other queues as well, e.g. for the task monitor: all of one kind, or no answer)
        kinds = {('sync' if isinstance(v, multiprocessing.managers.BaseProxy) else
                  'async' if isinstance(v, (multiprocessing.queues.Queue, multiprocessing.queues.SimpleQueue)) else 'other') for v in qs}
        if kinds == {'sync'}:
            return 'LogQueueSync'
        if kinds == {'async'}:
            return 'LogQueueAsync'
        return None
    finally:
        try:
            r.close()
        except Exception:   # noqa
            pass


def probe_ctx_binding():
    """ctx_binding: a Lab whose context attribute is given another dict runs its next tasks with that one."""
    import logging
    from labtech.lab import Lab
    from lv_probe_types import PCtxAll
    t1, t2 = PCtxAll(n=1), PCtxAll(n=2)
    with _quiet():
        lab = Lab(storage=None, runner_backend='serial', context={'a': 1}, notebook=False)
        r1 = lab.run_tasks([t1], disable_progress=True, disable_top=True).get(t1)
        lab.context = {'a': 2, 'b': 3}
        r2 = lab.run_tasks([t2], disable_progress=True, disable_top=True).get(t2)
    if r1 != [('a', 1)]:
        return None
    if r2 == [('a', 2), ('b', 3)]:
        return 'CtxAtRun'
    if r2 == [('a', 1)]:
        return 'CtxAtInit'
    return None


def probe_failtest():
    """fail_test: a task that calls sys.exit() is booked as a failed task (run_tasks with continue_on_failure returns the others)."""
    from labtech.exceptions import LabError
    from labtech.lab import Lab
    from lv_probe_types import PLeaf, PExit
    good, bad = PLeaf(x=5), PExit(x=1)
    with _quiet():
        lab = Lab(storage=None, runner_backend='serial', continue_on_failure=True, notebook=False)
        try:
            res = lab.run_tasks([bad, good], disable_progress=True, disable_top=True)
        except LabError as e:
            return 'FailException' if 'Unexpected task res' in str(e) else None
    if res.get(good) == 5 and bad not in res:
        return 'FailBaseException'
    return None


def probe_fork_close():
    """close_mode: closing one fork runner leaves the registry entry of another fork runner in place."""
    import labtech.runners.process as P
    from labtech.runners import ForkRunnerBackend
    from labtech.storage import NullStorage
    reg = getattr(P, '_RUNNER_FORK_MEMORY', None)
    if not isinstance(reg, dict):
        return None
    before = set(reg)
    a = ForkRunnerBackend().build_runner(context={}, storage=NullStorage(), max_workers=1)
    b = ForkRunnerBackend().build_runner(context={}, storage=NullStorage(), max_workers=1)
    try:
        mine = set(reg) - before
        if len(mine) != 2:
            return None
        b.close()
        left = set(reg) - before
        if len(left) == 1:
            return 'CloseOwn'
        if len(left) == 0:
            return 'CloseAll'
        return None
    finally:
        for r in (a, b):
            try:
                r.close()
            except Exception:   # noqa
                pass


def probe_is_cached():
    """is_cached_mode: Lab.is_cached asks the task type's cache class (one that also finds results elsewhere is believed), and asks
    again every time (an entry removed through another Lab object is gone for this one too)."""
    import shutil
    import tempfile
    from labtech.lab import Lab
    from lv_probe_types import Elsewhere, PElse
    Elsewhere.found.clear()
    d = tempfile.mkdtemp(prefix='lvprobe_iscached')
    try:
        with _quiet():
            lab = Lab(storage=d, runner_backend='serial', notebook=False)
            t = PElse(x=1)
            if lab.is_cached(t):
                return None
            Elsewhere.found.add(t.cache_key)
            asks_cache = bool(lab.is_cached(t))
            Elsewhere.found.clear()
            u = PElse(x=2)
            lab.run_tasks([u], disable_progress=True, disable_top=True)
            if not lab.is_cached(u):
                return None
            Lab(storage=d, runner_backend='serial', notebook=False).uncache_tasks([u])
            stale = bool(lab.is_cached(u))
        if stale:
            return 'IsCachedMemoises'
        return 'IsCachedAsksCache' if asks_cache else 'IsCachedAsksStorage'
    finally:
        shutil.rmtree(d, ignore_errors=True)


def probe_view():
    """view_mode: under the fork backend, does a worker forked after the in-memory results have been empty once still see the
    results of its dependencies?  (One worker; an independent task finishes first and its result is released at once.)"""
    import logging
    from labtech.lab import Lab
    from lv_probe_types import PLeaf, PSum
    first, top = PLeaf(x=1), PSum(dep=PLeaf(x=2))
    with _quiet():
        lab = Lab(storage=None, runner_backend='fork', max_workers=1, continue_on_failure=True, notebook=False)
        res = lab.run_tasks([first, top], disable_progress=True, disable_top=True)
    if res.get(first) != 1:
        return None
    if top in res:
        return 'ViewInPlace' if res[top] == ('sum', 2) else None
    return 'ViewRebinds'


def probe_scope():
    """exec_scope: two process runners built in one interpreter have executors of their own (distinct objects, no mutable
    container shared through the class or between the instances) with the max_workers each was given."""
    from labtech.runners import ForkRunnerBackend
    from labtech.storage import NullStorage
    runners = [ForkRunnerBackend().build_runner(context={}, storage=NullStorage(), max_workers=w) for w in (3, 1)]
    try:
        exs = []
        for r in runners:
            found = [v for v in vars(r).values() if hasattr(v, 'submit') and hasattr(v, 'wait') and hasattr(v, 'max_workers')]
            if len(found) != 1:
                return None
            exs.append(found[0])
        a, b = exs
        if a is b or (a.max_workers, b.max_workers) != (3, 1):
            return 'ExecShared'
        for name, val in vars(type(b)).items():
            if isinstance(val, (dict, list, set)) and name not in vars(b):
                return 'ExecShared'
        for name, val in vars(a).items():
            if isinstance(val, (dict, list, set)) and vars(b).get(name) is val:
                return 'ExecShared'
        return 'ExecPerRunner'
    finally:
        for r in runners:
            try:
                r.close()
            except Exception:   # noqa
                pass


def all_probes():
    out = {}
    r = _limited(probe_ready) or (None, None)
    out['p_cmp'], out['p_dep_guard'] = r
    out['p_missing'] = _limited(probe_missing)
    out['p_final'] = _limited(probe_final)
    r = _limited(probe_exec) or (None, None, None)
    out['start'], out['ctor'], out['wait'] = r
    out['snap'] = _limited(probe_snapshot)
    out['launch'] = _limited(probe_launch)
    out['view'] = _limited(probe_view)
    out['mark'] = _limited(probe_mark)
    out['failtest'] = _limited(probe_failtest)
    out['iscached'] = _limited(probe_is_cached)
    out['lq'] = _limited(probe_log_queue)
    out['binding'] = _limited(probe_ctx_binding)
    out['close'] = _limited(probe_fork_close)
    out['scope'] = _limited(probe_scope)
    out.update(_limited(probe_storage) or {})
    r = _limited(probe_cache) or (None, None)
    out['order'], out['cleanup'] = r
    out.update(_limited(probe_values) or {})
    out.update(_limited(probe_ctx, 60) or {})
    out.update(_limited(probe_log) or {})
    out['gen'] = _limited(probe_gen)
    out['bound'] = _limited(probe_bound)
    r = _limited(probe_interrupt_handlers) or (None, None, None)
    out['drain'], out['stop'], out['stopcancel'] = r
    return out


if __name__ == '__main__':
    import json
    import sys
    res = all_probes()
    with open(sys.argv[1] + '.part', 'w') as f:
        json.dump(res, f)
    os.replace(sys.argv[1] + '.part', sys.argv[1])
    os._exit(0)
