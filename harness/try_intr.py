import sys, random, json
sys.path.insert(0,'/verif/harness')
import sched_h as S, exec_h as X, intr_h as I, common as C
rng = random.Random(int(sys.argv[1]) if len(sys.argv)>1 else 0)
N = int(sys.argv[2]) if len(sys.argv)>2 else 3
P = sys.argv[3] if len(sys.argv)>3 else '{| ip := sched_params; ip_gen := PruneAfter; ip_drain_swallows := false |}'
terms=[]; info=[]
for i in range(N):
    c = S.gen_case(rng, runner='l2', max_n=5, p_fail=0.15, allow_dups=False)
    c['max_workers'] = rng.choice([1,2,3]); c['pre']=[]; 
    # baseline to count ticks
    obs, oracle, ticker, script = I.run_interrupt(c, None, None)
    total = ticker.n
    terms.append(I.emit_icase(c, obs, oracle, None, None, [])); info.append((c,None,None,obs))
    for k1 in range(total):
        obs, oracle, ticker, script = I.run_interrupt(c, k1, None)
        term_tids = [script.submit_tids[f] for f in script.terminated_fids]
        terms.append(I.emit_icase(c, obs, oracle, k1, None, term_tids)); info.append((c,k1,None,obs))
    print('case', i, 'ticks', total)
from collections import Counter
print(Counter(o['outcome'] for _,_,_,o in info))
bad = C.coq_failing('tryi', I.INTR_IMPORTS, terms, f'check_icase {P}')
print('mismatch', len(bad), bad[:20])
for b in bad[:3]:
    c,k1,k2,o = info[b]; print(json.dumps(c)); print(k1,k2,o['outcome'],o.get('exc')); print(o['events']); print(terms[b][-900:])
