"""C16: execution records of real runs under serial / fork / spawn: which process and thread ran each task, whether
the worker shares the caller's memory image, which context run() saw, and that keys / stored entries do not depend on
the context."""
import json
import logging
import os
import shutil
import tempfile
import threading
from collections import Counter

import labtech
from labtech.lab import Lab

import lv_universe as U
from common import rng_for, subdir
from common import storage_of

logging.getLogger('labtech').setLevel(logging.CRITICAL)

EXPECT = {'serial': 'InCaller', 'fork': 'ForkedChild', 'spawn': 'SpawnedChild'}
# no backend named: fork where the platform supports forked Python subprocesses, else spawn (what the documentation promises)
import multiprocessing as _mp
EXPECT['default'] = 'ForkedChild' if 'fork' in _mp.get_all_start_methods() else 'SpawnedChild'


def classify(rec, caller_pid, caller_thread):
    if rec['pid'] == caller_pid:
        return 'InCaller' if rec['thread'] == caller_thread else 'InCallerOtherThread'
    if rec['marker'] == 'mutated-by-parent':
        return 'ForkedChild'          # sees what the parent wrote into module memory after import
    return 'SpawnedChild'             # a fresh import of the module


def run_config(cfg):
    d = tempfile.mkdtemp(dir=subdir('env'))
    recdir = os.path.join(d, 'rec')
    os.makedirs(recdir)
    os.environ['LV_RECDIR'] = recdir
    U.PARENT_MARKER = 'mutated-by-parent'
    stop_helper = threading.Event()
    helper = None
    if cfg.get('helper_thread'):
        # the caller is a multi-threaded program: an idle thread is alive while run_tasks runs
        helper = threading.Thread(target=stop_helper.wait, daemon=True)
        helper.start()
    try:
        ctx = dict(cfg['context'])
        if cfg.get('lock_in_context'):
            # a context value that can be neither copied nor pickled, and is compared by identity (serial and fork only)
            ctx['handle'] = threading.Lock()
        given = dict(ctx)
        if cfg.get('lazy_context'):
            # the Lab's context is a dict subclass that computes missing entries; a task type without a filter of its own sees it as it is
            given = U.LazyContext(ctx)
            os.environ['LV_LAZY_CONTEXT'] = '1'
        if cfg.get('fill_later'):
            # the caller hands over an (empty) dict and fills it before the first run_tasks call: it is the Lab's context
            given = {}
        lab = Lab(storage=os.path.join(d, 'store'), runner_backend=(None if cfg['backend'] == 'default' else cfg['backend']), max_workers=cfg['max_workers'],
                  context=given, notebook=False)
        if cfg.get('fill_later'):
            given.update(ctx)
        leaves = [U.TCtxNone(label=i) if cfg['filter'] == 'none' else ((U.TCtx if i % 2 == 0 else U.TCtxI)(label=i) if cfg['filter'] else U.Ta(label=i))
                  for i in range(cfg['n'])]
        tops = [U.Tab(label=100 + i, deps=(leaves[i], leaves[(i + 1) % cfg['n']]), reads=(0, 1)) for i in range(cfg['n'])]
        refs = [U.TRef(label=200 + i) for i in range(2)]
        reftop = U.TRef(label=210, deps=(refs[0], refs[1]))
        tasks = tops + leaves[:1] + [reftop]
        res = lab.run_tasks(tasks, disable_progress=True, disable_top=True)
        if cfg.get('rerun'):
            # the same task objects are run again (everything re-executed) under a Lab with another context: what the
            # tasks see is the filter of *that* context
            for f in os.listdir(recdir):
                os.unlink(os.path.join(recdir, f))
            ctx = dict(ctx, a=ctx['a'] + 100, k0='y', k1=[3], k2='new')
            if cfg['rerun'] == 'rebind':
                lab.context = dict(ctx)          # the same Lab is given another context object
            elif cfg['rerun'] == 'inplace':
                lab.context.clear()              # the Lab's context object is changed in place
                lab.context.update(ctx)
            else:
                lab = Lab(storage=os.path.join(d, 'store'), runner_backend=(None if cfg['backend'] == 'default' else cfg['backend']), max_workers=cfg['max_workers'],
                          context=dict(ctx), notebook=False)
            res = lab.run_tasks(tasks, bust_cache=True, disable_progress=True, disable_top=True)
        recs = []
        for f in sorted(os.listdir(recdir)):
            with open(os.path.join(recdir, f)) as fh:
                recs.append(json.load(fh))
        keys = {t.label: t.cache_key for t in leaves + tops + refs + [reftop]}
        stored = {}
        leaked = []
        import hashlib
        for t in leaves + tops + refs + [reftop]:
            with storage_of(lab).file_handle(t.cache_key, 'metadata.json', mode='r') as fh:
                raw_md = fh.read()
            md = json.loads(raw_md)
            md.pop('start_timestamp', None)
            md.pop('duration_seconds', None)
            with storage_of(lab).file_handle(t.cache_key, 'data.pickle', mode='rb') as fh:
                data = fh.read()
            stored[t.label] = [md, hashlib.sha1(data).hexdigest()]
            if b'SENTINEL' in data or 'SENTINEL' in raw_md:
                leaked.append(t.label)
        # expected: the universe's own filter for the filtering types (also the one that only inherits it), identity otherwise
        def expected(t):
            if isinstance(t, U.TCtxNone):
                return {}
            return U._filter_first(t, dict(ctx)) if isinstance(t, (U.TCtx, U.TCtxI)) else dict(ctx)
        want_ctx = {t.label: {k: repr(v) for k, v in sorted(expected(t).items())} for t in leaves + tops}
        return dict(recs=recs, keys=keys, stored=stored, want_ctx=want_ctx, n_results=len(res), leaked=leaked,
                    values_ok=all(res[t] == ('N', t.label, (('N', t.deps[0].label, ()), ('N', t.deps[1].label, ()))) for t in tops))
    finally:
        stop_helper.set()
        if helper is not None:
            helper.join(5)
        os.environ.pop('LV_RECDIR', None)
        os.environ.pop('LV_LAZY_CONTEXT', None)
        U.PARENT_MARKER = 'import-time'
        shutil.rmtree(d, ignore_errors=True)


def stage_two_labs(report, dist):
    """Two Labs with the fork backend run at the same time in two threads of one interpreter; the one that finishes first closes its
    runner while the other still has a task to fork: that task's worker inherits the memory of *its* runner all the same."""
    import time
    from labtech.lab import Lab
    d = tempfile.mkdtemp(dir=subdir('twolabs'))
    gdir = os.path.join(d, 'gates')
    os.makedirs(gdir)
    os.environ['LV_GATEDIR'] = gdir
    os.environ['LV_GATE_TIMEOUT'] = '30'
    try:
        a1 = U.Ta(label=1)
        a2 = U.Tab(label=2, deps=(a1,), reads=(0,))
        b1 = U.Ta(label=11)
        for lbl in (2, 11):
            open(os.path.join(gdir, f'go_{lbl}'), 'w').close()        # only task 1 is held back
        out = {}

        def runner(name, tasks, ctx):
            try:
                lab = Lab(storage=None, runner_backend='fork', max_workers=1, continue_on_failure=True, context=ctx, notebook=False)
                out[name] = lab.run_tasks(tasks, disable_progress=True, disable_top=True)
            except BaseException as e:   # noqa
                out[name] = e
        ta = threading.Thread(target=runner, args=('A', [a2], {'a': 1}))
        ta.start()
        deadline = time.monotonic() + 20
        while not os.path.exists(os.path.join(gdir, 'started_1')) and time.monotonic() < deadline:
            time.sleep(0.01)
        tb = threading.Thread(target=runner, args=('B', [b1], {'a': 2}))
        tb.start()
        tb.join(30)                                                       # Lab B is done, its runner closed
        open(os.path.join(gdir, 'go_1'), 'w').close()                     # now Lab A goes on: task 2 is forked
        ta.join(40)
        dist['two_lab_runs'] += 1
        ok_b = isinstance(out.get('B'), dict) and out['B'].get(b1) == ('N', 11, ())
        ok_a = isinstance(out.get('A'), dict) and out['A'].get(a2) == ('N', 2, (('N', 1, ()),))
        if not (ok_a and ok_b) or ta.is_alive():
            report.violation('C16:fork-memory-lost', f'two Labs (fork backend) running in two threads: Lab B finished and closed its runner while Lab A still had a task to fork; '
                                                     f'Lab A ended with {out.get("A")!r}, Lab B with {out.get("B")!r}: a worker forked by A did not find the memory of its runner',
                             dict(level='two-labs'))
    finally:
        os.environ.pop('LV_GATEDIR', None)
        os.environ.pop('LV_GATE_TIMEOUT', None)
        shutil.rmtree(d, ignore_errors=True)


def run(prop, report, tier, seed, replay=None):
    rng = rng_for(seed, prop, 'env')
    cfgs = []
    if replay and replay['input'].get('level') == 'two-labs':
        stage_two_labs(report, Counter())
        report.coverage.update(evaluations=1, distinct_nontrivial=1, rule='replay', distribution={})
        return
    if replay:
        cfgs = [replay['input']['config']]
    else:
        backends = ['serial', 'fork', 'spawn']
        for b in backends:
            for mw in ((1, None) if tier == 'quick' else (1, 2, 4, None)):
                for filt in (False, True):
                    if tier == 'quick' and b == 'spawn' and mw is None and filt:
                        continue
                    cfgs.append(dict(backend=b, max_workers=mw, filter=filt, n=2 if b == 'spawn' else rng.randint(2, 4),
                                     context={'a': rng.randint(0, 9), 'k0': 'x', 'k1': [1, 2], 'other': rng.random(),
                                              'secret': f'SENTINEL-{rng.randrange(10 ** 9)}'},
                                     helper_thread=(len(cfgs) % 2 == 1), rerun=(len(cfgs) % 3 == 2)))
    if not replay:
        # an empty Lab context (identity filter), and a filter that selects nothing, still reach run() as {}
        cfgs.append(dict(backend='serial', max_workers=1, filter=False, n=2, context={}, helper_thread=False, rerun=False))
        cfgs.append(dict(backend='fork', max_workers=2, filter=False, n=2, context={}, helper_thread=False, rerun=False))
        for b in ('serial', 'fork', 'spawn'):
            cfgs.append(dict(backend=b, max_workers=2, filter='none', n=2, context={'a': 1, 'k0': 'x'}, helper_thread=False, rerun=False))
        for b in ('serial', 'fork'):
            cfgs.append(dict(backend=b, max_workers=2, filter=False, n=2, context={'a': 1}, lock_in_context=True, helper_thread=False, rerun=False))
        cfgs.append(dict(backend='default', max_workers=2, filter=True, n=2, context={'a': 1, 'k0': 'x', 'k1': [1]}, helper_thread=False, rerun=False))
        for b in ('serial', 'fork'):
            cfgs.append(dict(backend=b, max_workers=2, filter=False, n=2, context={'a': 1, 'k0': 'x'}, fill_later=True, helper_thread=False, rerun=False))
            cfgs.append(dict(backend=b, max_workers=2, filter=True, n=2, context={'a': 1, 'k0': 'x', 'k1': [1]}, fill_later=True, helper_thread=False, rerun=False))
            cfgs.append(dict(backend=b, max_workers=2, filter=False, n=2, context={'a': 1}, lazy_context=True, helper_thread=False, rerun=False))
        # the context of one Lab object changes between two runs: rebound to another dict, or updated in place
        for b, how, filt in (('serial', 'rebind', True), ('fork', 'rebind', False), ('fork', 'inplace', True), ('serial', 'inplace', False)) + \
                ((('spawn', 'rebind', True),) if tier == 'thorough' else ()):
            cfgs.append(dict(backend=b, max_workers=2, filter=filt, n=2, context={'a': 1, 'k0': 'x', 'k1': [1, 2]}, helper_thread=False, rerun=how))
    dist = Counter()
    samples = []
    if not replay:
        stage_two_labs(report, dist)
    baseline = {}
    caller_pid, caller_thread = os.getpid(), threading.get_ident()
    for cfg in cfgs:
        try:
            out = run_config(cfg)
        except BaseException as e:   # noqa
            report.violation('C16:run-raised', f'run_tasks under {cfg["backend"]} raised {e!r}', dict(config=cfg))
            continue
        starts = [r for r in out['recs'] if r['kind'] == 'start' and r['label'] < 200]
        dist[f"backend={cfg['backend']}"] += 1
        dist['task_executions'] += len(starts)
        places = Counter(classify(r, caller_pid, caller_thread) for r in starts)
        for pl, n in places.items():
            dist[f"{cfg['backend']}:{pl}"] += n
        wrong = [pl for pl in places if pl != EXPECT[cfg['backend']]]
        if wrong:
            report.violation(f"C16:wrong-place:{cfg['backend']}:{wrong[0]}",
                             f"backend {cfg['backend']} ran tasks as {wrong[0]} (expected {EXPECT[cfg['backend']]})", dict(config=cfg))
        if cfg['backend'] != 'serial':
            pids = [r['pid'] for r in starts]
            if len(set(pids)) != len(pids):
                report.violation('C16:shared-worker-process', 'two tasks ran in the same worker process', dict(config=cfg))
            if any(r['ppid'] != caller_pid for r in starts):
                report.violation('C16:not-a-child', 'a worker is not a child of the calling process', dict(config=cfg))
        if cfg.get('lazy_context'):
            lazy_bad = [r for r in starts if r.get('lazy') != 'lazy:__not_held_yet__']
            if lazy_bad:
                report.violation('C16:wrong-context', f"the Lab's context computes entries it does not hold; task {lazy_bad[0]['label']} (no filter of its own) looked one up in its "
                                                      f"context and got {lazy_bad[0].get('lazy')!r}: what it was handed is not the Lab's context", dict(config=cfg))
        for r in starts:
            if r['context'] != out['want_ctx'][r['label']]:
                report.violation('C16:wrong-context', f"task {r['label']} saw context {r['context']} instead of its filter_context of the Lab context {out['want_ctx'][r['label']]}", dict(config=cfg))
                break
        if out['leaked']:
            report.violation('C16:context-stored', f"the stored entries of tasks {out['leaked']} contain values of the Lab context", dict(config=cfg))
        if not out['values_ok']:
            report.violation('C16:wrong-values', 'results differ from the expected values', dict(config=cfg))
        # keys and stored entries do not depend on the context / backend
        sig = (cfg['filter'], cfg['n'])
        cur = (out['keys'], out['stored'])
        if sig in baseline and baseline[sig][0] != cur:
            report.violation('C16:context-leaks-into-cache', f"cache keys or stored metadata differ between runs that differ only in backend/context ({baseline[sig][1]} vs {cfg})", dict(config=cfg))
        baseline.setdefault(sig, (cur, cfg))
        if len(samples) < 3:
            samples.append(dict(config=cfg, places=dict(places), first_record={k: starts[0][k] for k in ('pid', 'ppid', 'marker', 'context', 'start_method')} if starts else None))
    report.coverage.update(
        evaluations=len(cfgs), distinct_nontrivial=len(cfgs), traces_validated_against_impl=dist['task_executions'],
        rule=('backend x max_workers x context filter (identity / per-parameter subset) on small diamond-shaped task sets; each '
              'run() writes an execution record (pid, parent pid, thread, a module global the parent mutated after import, the '
              'context it sees); every configuration is non-trivial (>=2 tasks with dependencies)'),
        distribution=dict(sorted(dist.items())), samples=samples)
